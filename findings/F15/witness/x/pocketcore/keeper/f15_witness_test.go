package keeper

// F15 witness: a validator record is removed by the end-of-block unstaking queue
// (x/nodes/keeper/valUnstaked.go unstakeAllMatureValidators -> FinishUnstakingValidator
// + DeleteValidator) WITHOUT clearing the process-global session cache
// (types.GlobalSessionCache). Every other mutation of a "session determinant"
// (jail, unjail, edit-stake, force-unstake) does clear it.
//
// Consequence: ValidateClaim (consensus path, DeliverTx) uses the cached session when
// the local node happened to serve a dispatch for that session, and recomputes it from
// state otherwise. The cached session was built against "the state when somebody
// dispatched", the recomputed one against "the state of the last block of the session".
// If a selected node's record is deleted in between, the two node sets differ and the
// SAME claim transaction is accepted on one full node and rejected on another.
//
// These tests PASS when that (bad) behaviour is present.
//
// Both tests drive real, unmodified code: nodes keeper EndBlocker, pocketcore keeper
// HandleDispatch and ValidateClaim, real IAVL versions loaded with LoadLazyVersion (the
// same call Context.PrevCtx makes). The only thing faked is the tendermint block store:
// historical contexts are put into sdk.GlobalCtxCache, which is the first place
// Context.PrevCtx looks (types/context.go), so no block metas are needed.

import (
	"fmt"
	"math"
	"math/big"
	"testing"
	"time"

	"github.com/pokt-network/pocket-core/codec"
	"github.com/pokt-network/pocket-core/crypto"
	"github.com/pokt-network/pocket-core/store"
	sdk "github.com/pokt-network/pocket-core/types"
	"github.com/pokt-network/pocket-core/types/module"
	apps "github.com/pokt-network/pocket-core/x/apps"
	appsKeeper "github.com/pokt-network/pocket-core/x/apps/keeper"
	appsTypes "github.com/pokt-network/pocket-core/x/apps/types"
	"github.com/pokt-network/pocket-core/x/auth"
	govTypes "github.com/pokt-network/pocket-core/x/gov/types"
	"github.com/pokt-network/pocket-core/x/nodes"
	nodesKeeper "github.com/pokt-network/pocket-core/x/nodes/keeper"
	nodesTypes "github.com/pokt-network/pocket-core/x/nodes/types"
	"github.com/pokt-network/pocket-core/x/pocketcore/types"
	"github.com/stretchr/testify/require"
	abci "github.com/tendermint/tendermint/abci/types"
	"github.com/tendermint/tendermint/libs/log"
	"github.com/tendermint/tendermint/privval"
	tmtypes "github.com/tendermint/tendermint/types"
	dbm "github.com/tendermint/tm-db"
)

const (
	f15SessionStart = int64(977) // 977 % 4 == 1  -> first block of a session
	f15SessionEnd   = int64(980) // 980 % 4 == 0  -> last block of that session
	f15ClaimHeight  = int64(981) // first height at which a claim for the session is valid
)

// f15Chain is a tiny "chain driver": one live multistore, one committed IAVL version per
// block, and a historical (PrevCtx-like) context per committed height.
type f15Chain struct {
	t      *testing.T
	ms     sdk.CommitMultiStore
	genT   time.Time
	k      Keeper
	nk     nodesKeeper.Keeper
	header types.SessionHeader
}

func f15BlockTime(gen time.Time, height int64) time.Time {
	return gen.Add(time.Duration(height) * 15 * time.Minute)
}

func (c *f15Chain) hdr(height int64) abci.Header {
	return abci.Header{
		ChainID:     "test-chain",
		Height:      height,
		Time:        f15BlockTime(c.genT, height),
		LastBlockId: abci.BlockID{Hash: types.Hash([]byte{byte(height)})},
	}
}

// liveCtx is what BeginBlock/DeliverTx/EndBlock of `height` run on (the working tree).
func (c *f15Chain) liveCtx(height int64) sdk.Context {
	return sdk.NewContext(c.ms, c.hdr(height), false, log.NewNopLogger())
}

// commit ends block `height`: commits the multistore and registers the immutable view of
// that version as "PrevCtx(height)" exactly the way Context.PrevCtx would build it
// (LoadLazyVersion + header of that block + SetPrevCtx(true)).
func (c *f15Chain) commit(height int64) sdk.Context {
	id := c.ms.Commit()
	lazy, err := c.ms.LoadLazyVersion(id.Version)
	require.NoError(c.t, err)
	hctx := sdk.NewContext((*lazy).(sdk.MultiStore), c.hdr(height), false, log.NewNopLogger()).SetPrevCtx(true)
	sdk.GlobalCtxCache.Add(fmt.Sprintf("%d", height), hctx)
	return hctx
}

// endBlock runs the real x/nodes EndBlocker for `height` and commits.
func (c *f15Chain) endBlock(height int64) sdk.Context {
	nodesKeeper.EndBlocker(c.liveCtx(height), c.nk)
	return c.commit(height)
}

// f15Setup builds the base state "as of the end of block 976" with 8 staked servicers on
// the test chain (createTestInput gives 5, we add 3 so that a session of 5 has spares).
func f15Setup(t *testing.T, unstakingTime time.Duration) (*f15Chain, *sdk.KVStoreKey) {
	oldMode := codec.TestMode
	codec.TestMode = -3 // all protocol upgrades active (mainnet-like rule set)
	t.Cleanup(func() { codec.TestMode = oldMode })
	sdk.InitCtxCache(64)

	ctx, k, keys := f15CreateTestInput(t)
	nk := k.posKeeper.(nodesKeeper.Keeper)
	// wire the nodes keeper to the pocketcore keeper as app/pocket.go does, so that every
	// ClearSessionCache() call in x/nodes really clears types.GlobalSessionCache.
	nk.PocketKeeper = k

	p := nk.GetParams(ctx)
	p.SessionBlockFrequency = 4 // mainnet value
	p.UnstakingTime = unstakingTime
	nk.SetParams(ctx, p)

	for i := 0; i < 3; i++ {
		pub := crypto.Ed25519PrivateKey{}.GenPrivateKey().PublicKey()
		v := nodesTypes.NewValidator(sdk.Address(pub.Address()), pub, []string{getTestSupportedBlockchain()},
			"https://www.google.com:443", sdk.ZeroInt(), sdk.Address(pub.Address()))
		nk.SetValidator(ctx, v)
		nk.SetStakedValidatorByChains(ctx, v)
		nk.SetValidatorSigningInfo(ctx, v.Address, nodesTypes.ValidatorSigningInfo{
			Address: v.Address, StartHeight: ctx.BlockHeight(), JailedUntil: time.Unix(0, 0)})
	}
	c := &f15Chain{
		t:    t,
		ms:   ctx.MultiStore().(sdk.CommitMultiStore),
		genT: time.Date(2024, 1, 1, 0, 0, 0, 0, time.UTC),
		k:    k,
		nk:   nk,
		header: types.SessionHeader{
			ApplicationPubKey:  getTestApplication().PublicKey.RawString(),
			Chain:              getTestSupportedBlockchain(),
			SessionBlockHeight: f15SessionStart,
		},
	}
	types.ClearSessionCache(types.GlobalSessionCache)
	return c, keys["pos"]
}

// f15CreateTestInput is createTestInput (common_test.go) verbatim, with ONE change: the IAVL
// stores are mounted with a nil db, as app/pocket.go does (MountKVStores), so that each store
// gets its own "s/k:<name>/" prefix. createTestInput hands the same db to every store, which
// makes them all share the "s/_/" prefix; that is fine as long as nothing is ever committed
// but panics on the first Commit(), and this witness needs real committed versions.
func f15CreateTestInput(t *testing.T) (sdk.Ctx, Keeper, map[string]*sdk.KVStoreKey) {
	sdk.VbCCache = sdk.NewCache(1)
	nAccs := int64(5)
	kb := NewTestKeybase()
	_, err := kb.Create("test")
	require.Nil(t, err)

	keyAcc := sdk.NewKVStoreKey(auth.StoreKey)
	keyParams := sdk.ParamsKey
	tkeyParams := sdk.ParamsTKey
	nodesKey := sdk.NewKVStoreKey(nodesTypes.StoreKey)
	appsKey := sdk.NewKVStoreKey(appsTypes.StoreKey)
	pocketKey := sdk.NewKVStoreKey(types.StoreKey)
	keys := map[string]*sdk.KVStoreKey{"params": keyParams, "pos": nodesKey, "application": appsKey}

	db := dbm.NewMemDB()
	ms := store.NewCommitMultiStore(db, false, 5000000)
	ms.MountStoreWithDB(keyAcc, sdk.StoreTypeIAVL, nil)
	ms.MountStoreWithDB(keyParams, sdk.StoreTypeIAVL, nil)
	ms.MountStoreWithDB(nodesKey, sdk.StoreTypeIAVL, nil)
	ms.MountStoreWithDB(appsKey, sdk.StoreTypeIAVL, nil)
	ms.MountStoreWithDB(pocketKey, sdk.StoreTypeIAVL, nil)
	ms.MountStoreWithDB(tkeyParams, sdk.StoreTypeTransient, nil)
	require.Nil(t, ms.LoadLatestVersion())

	ctx := sdk.NewContext(ms, abci.Header{ChainID: "test-chain"}, false, log.NewNopLogger())
	ctx = ctx.WithConsensusParams(&abci.ConsensusParams{
		Validator: &abci.ValidatorParams{PubKeyTypes: []string{tmtypes.ABCIPubKeyTypeEd25519}},
	})
	ctx = ctx.WithBlockHeader(abci.Header{
		Height:      976,
		Time:        time.Time{},
		LastBlockId: abci.BlockID{Hash: types.Hash([]byte("fake"))},
	})
	cdc := makeTestCodec()
	maccPerms := map[string][]string{
		auth.FeeCollectorName:     nil,
		appsTypes.StakedPoolName:  {auth.Burner, auth.Staking, auth.Minter},
		nodesTypes.StakedPoolName: {auth.Burner, auth.Staking},
		govTypes.DAOAccountName:   {auth.Burner, auth.Staking},
	}
	ethereum := getTestSupportedBlockchain()
	hb := types.HostedBlockchains{
		M: map[string]types.HostedBlockchain{ethereum: {ID: ethereum, URL: "https://www.google.com:443"}},
	}
	cb, err := kb.GetCoinbase()
	require.Nil(t, err)
	pk, err := kb.ExportPrivateKeyObject(cb.GetAddress(), "test")
	require.Nil(t, err)
	types.CleanPocketNodes()
	types.AddPocketNodeByFilePVKey(privval.FilePVKey{
		Address: tmtypes.Address(cb.GetAddress()),
		PubKey:  cb.PublicKey,
		PrivKey: pk,
	}, ctx.Logger())
	types.InitConfig(&hb, log.NewNopLogger(), sdk.DefaultTestingPocketConfig())

	ak := auth.NewKeeper(cdc, keyAcc, sdk.NewSubspace(auth.DefaultParamspace), maccPerms)
	nk := nodesKeeper.NewKeeper(cdc, nodesKey, ak, sdk.NewSubspace(nodesTypes.DefaultParamspace), nodesTypes.ModuleName)
	appk := appsKeeper.NewKeeper(cdc, appsKey, nk, ak, nil, sdk.NewSubspace(appsTypes.DefaultParamspace), appsTypes.ModuleName)
	appk.SetApplication(ctx, getTestApplication())
	keeper := NewKeeper(pocketKey, cdc, ak, nk, appk, &hb, sdk.NewSubspace(types.DefaultParamspace))
	appk.PocketKeeper = keeper
	moduleManager := module.NewManager(
		auth.NewAppModule(ak),
		nodes.NewAppModule(nk),
		apps.NewAppModule(appk),
	)
	moduleManager.InitGenesis(ctx, ModuleBasics.DefaultGenesis())
	initialCoins := sdk.NewCoins(sdk.NewCoin(sdk.DefaultStakeDenom, sdk.TokensFromConsensusPower(100000000000)))
	createTestAccs(ctx, int(nAccs), initialCoins, &ak)
	createTestApps(ctx, int(nAccs), sdk.NewIntFromBigInt(new(big.Int).SetUint64(math.MaxUint64)), appk, ak)
	createTestValidators(ctx, int(nAccs), sdk.ZeroInt(), &nk, ak, kb)
	appk.SetParams(ctx, appsTypes.DefaultParams())
	nk.SetParams(ctx, nodesTypes.DefaultParams())
	pp := types.DefaultParams()
	pp.SupportedBlockchains = []string{getTestSupportedBlockchain()}
	keeper.SetParams(ctx, pp)
	return ctx, keeper, keys
}

func f15Claim(h types.SessionHeader, from sdk.Address) types.MsgClaim {
	return types.MsgClaim{
		SessionHeader: h,
		MerkleRoot:    types.HashRange{Hash: types.Hash([]byte("root")), Range: types.Range{Lower: 0, Upper: 100}},
		TotalProofs:   10,
		FromAddress:   from,
		EvidenceType:  types.RelayEvidence,
	}
}

// f15Compare performs the common tail of both scenarios once the chain reached height
// 980: "node A" still holds the session it cached while dispatching, "node B" has no
// cache entry (never dispatched / restarted / LRU-evicted). Both process block 981.
func (c *f15Chain) f15Compare(cached types.Session, v sdk.Address) {
	t := c.t
	deliver := c.liveCtx(f15ClaimHeight) // DeliverTx context of block 981

	// --- node A: the entry written by HandleDispatch is STILL in the global cache, i.e.
	//     nothing on the unstake path cleared it.
	stillCached, found := types.GetSession(c.header, types.GlobalSessionCache)
	require.True(t, found, "F15: session cache entry survived the deletion of a selected validator")
	require.Equal(t, cached.SessionNodes, stillCached.SessionNodes)
	require.True(t, stillCached.SessionNodes.Contains(v), "cached session still lists the deleted validator")

	// --- what ValidateClaim computes on a cache miss (claim.go:195-204)
	sessionCtx, err := deliver.PrevCtx(f15SessionStart)
	require.NoError(t, err)
	endCtx, err := deliver.PrevCtx(f15SessionEnd)
	require.NoError(t, err)
	require.Nil(t, c.nk.Validator(endCtx, v), "validator record is gone in the session-end state")
	require.True(t, f15InChainIndex(c, sessionCtx, v), "validator was a session candidate (per-chain index at session start)")
	bh, err := sessionCtx.BlockHash(c.k.Cdc, sessionCtx.BlockHeight())
	require.NoError(t, err)
	recomputed, serr := types.NewSession(sessionCtx, endCtx, c.nk, c.header, hexStr(bh), int(c.k.SessionNodeCount(sessionCtx)))
	require.Nil(t, serr)
	require.False(t, recomputed.SessionNodes.Contains(v))
	require.NotEqual(t, cached.SessionNodes, recomputed.SessionNodes, "F15: cached and recomputed node sets differ")

	// the node that takes the deleted validator's place in the recomputed session
	var w sdk.Address
	for _, a := range recomputed.SessionNodes {
		if !cached.SessionNodes.Contains(a) {
			w = a
		}
	}
	require.NotNil(t, w)
	t.Logf("cached     (node A): %v", cached.SessionNodes)
	t.Logf("recomputed (node B): %v", recomputed.SessionNodes)
	t.Logf("deleted validator V = %s, replacement W = %s", v, w)

	claimV := f15Claim(c.header, v)
	claimW := f15Claim(c.header, w)

	// node A (cache hit)
	errAV := c.k.ValidateClaim(deliver, claimV)
	errAW := c.k.ValidateClaim(deliver, claimW)
	// node B (cache miss)
	types.ClearSessionCache(types.GlobalSessionCache)
	errBV := c.k.ValidateClaim(deliver, claimV)
	errBW := c.k.ValidateClaim(deliver, claimW)
	t.Logf("ValidateClaim(claim from V): node A (cached) -> %v | node B (recomputed) -> %v", errAV, errBV)
	t.Logf("ValidateClaim(claim from W): node A (cached) -> %v | node B (recomputed) -> %v", errAW, errBW)

	// THE DIVERGENCE: identical tx, identical chain state, different DeliverTx verdict.
	require.Nil(t, errAV, "node A accepts V's claim")
	require.NotNil(t, errBV, "node B rejects V's claim")
	require.Equal(t, types.NewInvalidSessionError(types.ModuleName).Code(), errBV.Code())
	require.NotNil(t, errAW, "node A rejects W's claim")
	require.Equal(t, types.NewInvalidSessionError(types.ModuleName).Code(), errAW.Code())
	require.Nil(t, errBW, "node B accepts W's claim")
}

func hexStr(b []byte) string {
	const hexd = "0123456789abcdef"
	out := make([]byte, 0, len(b)*2)
	for _, x := range b {
		out = append(out, hexd[x>>4], hexd[x&0x0f])
	}
	return string(out)
}

// Scenario A - ordinary transaction flow, UnstakingTime == 0.
//
//	block 977 (session start)  V is staked and in the per-chain index -> session candidate
//	block 978                  V sends MsgBeginUnstake -> "waiting to begin unstaking"
//	after block 979            node A serves a dispatch: session (incl. V) is cached
//	block 980 (session end)    EndBlocker: ReleaseWaitingValidators -> BeginUnstakingValidator
//	                           (completion = blockTime + 0) and, in the same EndBlocker,
//	                           unstakeAllMatureValidators -> Finish + DeleteValidator.
//	                           NO ClearSessionCache.
//	block 981                  claims for the session: node A uses the stale cached session.
//
// Params.Validate() (x/nodes/types/params.go) and the gov param-change path accept
// UnstakingTime == 0; with any UnstakingTime > 0 this route is impossible, because a
// validator only starts unstaking in the EndBlock of a session's LAST block, so its
// record cannot disappear before PrevCtx(sessionEndHeight) is taken. See scenario B for
// a route that works with the 21-day mainnet value.
func TestF15_MatureUnstakeDoesNotClearSessionCache_ZeroUnstakingTime(t *testing.T) {
	c, _ := f15Setup(t, 0)

	// block 977: nothing special
	ctx977 := c.endBlock(f15SessionStart)

	// who is in the session? (pure function of state(977) as long as nothing changes)
	bh, err := ctx977.BlockHash(c.k.Cdc, ctx977.BlockHeight())
	require.NoError(t, err)
	probe, serr := types.NewSession(ctx977, ctx977, c.nk, c.header, hexStr(bh), 5)
	require.Nil(t, serr)
	v := probe.SessionNodes[0]

	// block 978: V's MsgBeginUnstake (same two keeper calls as x/nodes/handler.go handleMsgBeginUnstake)
	live := c.liveCtx(978)
	val, found := c.nk.GetValidator(live, v)
	require.True(t, found)
	require.Nil(t, c.nk.ValidateValidatorBeginUnstaking(live, val))
	require.Nil(t, c.nk.WaitToBeginUnstakingValidator(live, val))
	c.endBlock(978)

	// block 979
	ctx979 := c.endBlock(979)

	// node A: a client asks for its session. app.HandleDispatch uses
	// NewContext(LastBlockHeight) == PrevCtx(979).
	resp, derr := c.k.HandleDispatch(ctx979, c.header)
	require.Nil(t, derr)
	require.Equal(t, f15SessionStart, resp.Session.SessionHeader.SessionBlockHeight)
	cached, found := types.GetSession(c.header, types.GlobalSessionCache)
	require.True(t, found)
	require.True(t, cached.SessionNodes.Contains(v))

	// block 980: V begins unstaking AND matures AND is deleted, all inside EndBlocker
	ctx980 := c.endBlock(f15SessionEnd)
	_, found = c.nk.GetValidator(ctx980, v)
	require.False(t, found, "V's record was deleted by unstakeAllMatureValidators in the session's last block")

	c.f15Compare(cached, v)
}

// Scenario B - mainnet UnstakingTime (21 days), chain (re)started from an EXPORTED genesis.
//
// x/nodes InitGenesis explicitly allows validators that are "staked or unstaking", and
// ExportGenesis (used by `pocket util export-genesis-for-reset`) emits every record returned
// by GetAllValidators, unstaking ones included. InitGenesis then calls
// SetStakedValidatorByChains for EVERY genesis validator (x/nodes/genesis.go:36), so on the
// new chain an unstaking validator sits in the per-chain index although
// BeginUnstakingValidator had removed it on the old chain. NewSessionNodes only checks
// existence / jailed / chain - not status - so it is a session candidate. When its
// UnstakingCompletionTime (carried over by the genesis file) passes in the middle of a session
// its record is deleted, again without clearing the session cache.
func TestF15_MatureUnstakeDoesNotClearSessionCache_GenesisUnstakingValidator(t *testing.T) {
	c, posKey := f15Setup(t, nodesTypes.DefaultUnstakingTime) // 21 days
	require.Equal(t, 21*24*time.Hour, nodesTypes.DefaultUnstakingTime)

	// pick V: node selection depends only on the per-chain index and the session block hash
	probeCtx := c.liveCtx(f15SessionStart)
	bh, err := probeCtx.BlockHash(c.k.Cdc, probeCtx.BlockHeight())
	require.NoError(t, err)
	probe, serr := types.NewSession(probeCtx, probeCtx, c.nk, c.header, hexStr(bh), 5)
	require.Nil(t, serr)
	v := probe.SessionNodes[0]

	// ---- old chain: V began unstaking 21 days before (what will be) block 979
	old := sdk.NewContext(c.ms, abci.Header{ChainID: "old-chain", Height: 900,
		Time: f15BlockTime(c.genT, 979).Add(-nodesTypes.DefaultUnstakingTime)}, false, log.NewNopLogger())
	vRec, found := c.nk.GetValidator(old, v)
	require.True(t, found)
	c.nk.BeginUnstakingValidator(old, vRec)
	require.False(t, f15InChainIndex(c, old, v), "old chain: an unstaking validator is NOT in the per-chain index")

	// ---- export, wipe the nodes module store, import: "new chain from exported state"
	gen := nodes.ExportGenesis(old, c.nk)
	store := old.KVStore(posKey)
	it, _ := store.Iterator(nil, nil)
	var ks [][]byte
	for ; it.Valid(); it.Next() {
		ks = append(ks, append([]byte{}, it.Key()...))
	}
	it.Close()
	for _, key := range ks {
		_ = store.Delete(key)
	}
	require.Len(t, c.nk.GetAllValidators(old), 0)
	live976 := c.liveCtx(976)
	nodes.InitGenesis(live976, c.nk, c.nk.AccountKeeper, gen)
	require.True(t, f15InChainIndex(c, live976, v), "new chain: InitGenesis indexed the unstaking validator by chain")
	require.Equal(t, nodesTypes.DefaultUnstakingTime, c.nk.UnStakingTime(live976))

	ctx977 := c.endBlock(f15SessionStart)
	got, found := c.nk.GetValidator(ctx977, v)
	require.True(t, found)
	require.True(t, got.IsUnstaking())

	// after block 978 node A serves a dispatch
	ctx978 := c.endBlock(978)
	_, derr := c.k.HandleDispatch(ctx978, c.header)
	require.Nil(t, derr)
	cached, found := types.GetSession(c.header, types.GlobalSessionCache)
	require.True(t, found)
	require.True(t, cached.SessionNodes.Contains(v), "an Unstaking genesis validator is selected into the session")

	// block 979: V's 21-day timer expires -> record deleted mid-session by the real EndBlocker
	ctx979 := c.endBlock(979)
	_, found = c.nk.GetValidator(ctx979, v)
	require.False(t, found)
	c.endBlock(f15SessionEnd)

	c.f15Compare(cached, v)
}

func f15InChainIndex(c *f15Chain, ctx sdk.Ctx, v sdk.Address) bool {
	l, _ := c.nk.GetValidatorsByChain(ctx, c.header.Chain)
	for _, a := range l {
		if a.Equals(v) {
			return true
		}
	}
	return false
}

// Control (reachability bound for scenario A): with ANY UnstakingTime > 0 - here 1ns, mainnet
// uses 21 days - the ordinary MsgBeginUnstake flow cannot trigger the divergence. The
// validator only leaves the "waiting" list in the EndBlock of the session's last block (980),
// its completion time is blockTime(980)+UnstakingTime > blockTime(980), so the record is
// deleted in block 981 at the earliest, i.e. after PrevCtx(sessionEndHeight) was taken, and
// from block 980 on it is out of the per-chain index so it is in no later session either.
func TestF15_Control_PositiveUnstakingTime_NoDivergence(t *testing.T) {
	c, _ := f15Setup(t, time.Nanosecond)
	ctx977 := c.endBlock(f15SessionStart)
	bh, err := ctx977.BlockHash(c.k.Cdc, ctx977.BlockHeight())
	require.NoError(t, err)
	probe, serr := types.NewSession(ctx977, ctx977, c.nk, c.header, hexStr(bh), 5)
	require.Nil(t, serr)
	v := probe.SessionNodes[0]
	live := c.liveCtx(978)
	val, _ := c.nk.GetValidator(live, v)
	require.Nil(t, c.nk.WaitToBeginUnstakingValidator(live, val))
	c.endBlock(978)
	ctx979 := c.endBlock(979)
	_, derr := c.k.HandleDispatch(ctx979, c.header)
	require.Nil(t, derr)
	cached, found := types.GetSession(c.header, types.GlobalSessionCache)
	require.True(t, found)
	ctx980 := c.endBlock(f15SessionEnd)
	got, found := c.nk.GetValidator(ctx980, v)
	require.True(t, found, "record still exists in the session-end state")
	require.True(t, got.IsUnstaking())
	ctx981 := c.endBlock(f15ClaimHeight)
	_, found = c.nk.GetValidator(ctx981, v)
	require.False(t, found, "deleted one block after the session ended")
	recomputed, serr := types.NewSession(ctx977, ctx980, c.nk, c.header, hexStr(bh), 5)
	require.Nil(t, serr)
	require.Equal(t, cached.SessionNodes, recomputed.SessionNodes)
	// and V is in no later session: gone from the per-chain index since EndBlock(980)
	require.False(t, f15InChainIndex(c, ctx981, v))
}
