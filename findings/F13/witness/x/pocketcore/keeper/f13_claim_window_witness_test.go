package keeper

// F13 witness.
//
// These tests PASS when the suspected behaviour is PRESENT in the unchanged code:
//
//   Let S = session block height, W = ClaimSubmissionWindow, B = BlocksPerSession, A = P = S + W*B.
//
//   (1) ValidateClaim still ACCEPTS a MsgClaim in the block at height A
//       (ClaimIsMature is `height > W*B+S`, i.e. strictly greater).
//   (2) At that very height getPseudorandomIndex already returns the index of the leaf that must be proven.
//       Its only chain entropy is ctx.GetPrevBlockHash(P) == header(P).LastBlockId.Hash == hash(block P-1),
//       which is public as soon as block P-1 is committed, i.e. BEFORE a tx for block A has to be broadcast.
//       The test recomputes the index "off-chain" from nothing but hash(block P-1), the session header and
//       TotalProofs and shows that it equals the value the chain uses.
//   (3) Consequence: a servicer holding ONE genuine relay claims 1000 relays at height A with a merkle tree
//       whose other 999 leaves are unsigned garbage, proves it IN THE SAME BLOCK (ValidateProof has no
//       maturity check), gets paid for 1000 relays, the claim is deleted by ExecuteProof, and - because the
//       session is still "not mature" at height A - the same session is claimed, proven and paid AGAIN.
//
// Only real code is exercised: the ctx is a real types.Context (no mock); the handler sequence
// (ValidateClaim -> SetClaim, ValidateProof -> ExecuteProof) is copied from x/pocketcore/handler.go.
// The historical contexts PrevCtx(S) / PrevCtx(sessionEnd) are served from the regular sdk.GlobalCtxCache
// (the same cache a node uses), because the keeper test harness has no block store.

import (
	"encoding/binary"
	"encoding/hex"
	"encoding/json"
	"testing"

	sdk "github.com/pokt-network/pocket-core/types"
	"github.com/pokt-network/pocket-core/x/auth"
	authTypes "github.com/pokt-network/pocket-core/x/auth/types"
	nodesTypes "github.com/pokt-network/pocket-core/x/nodes/types"
	"github.com/pokt-network/pocket-core/x/pocketcore/types"
	"github.com/stretchr/testify/require"
	abci "github.com/tendermint/tendermint/abci/types"
	tmStore "github.com/tendermint/tendermint/store"
	dbm "github.com/tendermint/tm-db"
	"golang.org/x/crypto/blake2b"
)

// f13Env is the chain "as seen" at a few heights, all sharing the same state (as the existing keeper tests do).
type f13Env struct {
	k        Keeper
	vals     []nodesTypes.Validator
	S, W, B  int64
	A        int64  // S + W*B : last height at which a claim is accepted == height whose header seeds the index
	hashPm1  []byte // hash of block P-1 (public once block P-1 is committed)
	ctxAt    func(h int64) sdk.Context
	header   types.SessionHeader
	servicer nodesTypes.Validator
}

func f13Setup(t *testing.T) f13Env {
	// a real ctx cache so that the real Context.PrevCtx() can serve the session contexts
	sdk.InitCtxCache(20)
	t.Cleanup(func() { sdk.GlobalCtxCache = nil })

	c, vals, _, _, k, _, _ := createTestInput(t, false)
	base := c.(sdk.Context)
	e := f13Env{k: k, vals: vals}
	e.S = 1
	e.W = k.ClaimSubmissionWindow(base)
	e.B = k.BlocksPerSession(base)
	e.A = e.S + e.W*e.B
	require.Equal(t, int64(76), e.A, "default params: S=1, W=3, B=25")
	e.hashPm1 = types.Hash([]byte("hash of block P-1 = 75, known to everybody once block 75 is committed"))

	// an (empty) block store, so that asking for a block that does not exist yet is an error instead of a nil deref
	bs := tmStore.NewBlockStore(dbm.NewMemDB())
	e.ctxAt = func(h int64) sdk.Context {
		hdr := abci.Header{ChainID: "test-chain", Height: h, LastBlockId: abci.BlockID{Hash: types.Hash([]byte{byte(h - 1)})}}
		if h == e.A {
			hdr.LastBlockId.Hash = e.hashPm1 // header(P).LastBlockId.Hash == hash(block P-1)
		}
		return base.WithBlockHeader(hdr).WithBlockStore(bs)
	}
	// historical contexts used by ValidateClaim / ValidateProof: session start (S) and session end (S+B-1)
	sdk.GlobalCtxCache.Add("1", e.ctxAt(e.S).SetPrevCtx(true))
	sdk.GlobalCtxCache.Add("25", e.ctxAt(e.S+e.B-1).SetPrevCtx(true))

	// Harness fix-up (state fixture only, no code change): the real app (app/pocket.go) gives the node staked pool
	// the Minter permission; createTestInput() forgets it, so relay rewards could never be minted in this harness.
	ak := k.authKeeper.(auth.Keeper)
	switch pool := ak.GetModuleAccount(base, nodesTypes.StakedPoolName).(type) {
	case *authTypes.ModuleAccount:
		pool.Permissions = append(pool.Permissions, auth.Minter)
		ak.SetModuleAccount(base, pool)
	case authTypes.ModuleAccount:
		pool.Permissions = append(pool.Permissions, auth.Minter)
		ak.SetModuleAccount(base, pool)
	default:
		t.Fatalf("unexpected module account type %T", pool)
	}

	e.servicer = vals[0] // a real staked validator on the test chain => member of the (5 node) session
	e.header = types.SessionHeader{
		ApplicationPubKey:  getTestApplication().PublicKey.RawString(),
		Chain:              getTestSupportedBlockchain(),
		SessionBlockHeight: e.S,
	}
	return e
}

// the index formula of getPseudorandomIndex, evaluated with NO access to chain state:
// inputs are hash(block P-1), the session header and the number of relays the servicer is about to claim.
func f13OffChainIndex(hashOfBlockPminus1 []byte, header types.SessionHeader, total int64) int64 {
	r, _ := json.Marshal(struct {
		BlockHash string
		Header    string
	}{hex.EncodeToString(hashOfBlockPminus1), header.HashString()})
	return types.PseudorandomSelection(sdk.NewInt(total), types.Hash(r)).Int64()
}

// leaf "sum" used by the merkle tree to sort leaves (types.sumFromHash(types.merkleHash(bytes)))
func f13LeafSum(p types.Proof) uint64 {
	h := blake2b.Sum256(p.Bytes())
	return binary.LittleEndian.Uint64(h[:8])
}

// f13ForgeTree builds `total` leaves of which only `genuine` is a real relay; the rest is unsigned garbage,
// arranged so that after the tree's sort-by-hash the genuine leaf sits exactly at position `idx`.
func f13ForgeTree(t *testing.T, genuine types.RelayProof, total, idx int64, salt int64) []types.Proof {
	g := f13LeafSum(genuine)
	var below, above []types.Proof
	for n := int64(0); int64(len(below)) < idx || int64(len(above)) < total-1-idx; n++ {
		junk := types.RelayProof{ // never signed by any client, never served
			Entropy:            salt*1_000_000 + n + 1000,
			SessionBlockHeight: genuine.SessionBlockHeight,
			ServicerPubKey:     genuine.ServicerPubKey,
			Blockchain:         genuine.Blockchain,
			RequestHash:        "junk",
		}
		if s := f13LeafSum(junk); s < g && int64(len(below)) < idx {
			below = append(below, junk)
		} else if s > g && int64(len(above)) < total-1-idx {
			above = append(above, junk)
		}
		require.Less(t, n, int64(1_000_000), "could not grind junk leaves")
	}
	leaves := append(append(below, genuine), above...)
	require.Len(t, leaves, int(total))
	return leaves
}

// (1) + (2)
func TestF13_ClaimAcceptedAtHeightWhereProofIndexIsAlreadyKnown(t *testing.T) {
	e := f13Setup(t)
	k := e.k
	priv, client := getTestApplicationPrivateKey(), getRandomPrivateKey()

	// an honest claim: 8 genuine relays
	var relays []types.Proof
	for j := 0; j < 8; j++ {
		relays = append(relays, createProof(priv, client, e.servicer.PublicKey, e.header.Chain, j))
	}
	root, _ := types.GenerateRoot(e.S, relays)
	claim := types.MsgClaim{
		SessionHeader: e.header,
		MerkleRoot:    root,
		TotalProofs:   8,
		FromAddress:   e.servicer.Address,
		EvidenceType:  types.RelayEvidence,
	}
	require.Nil(t, claim.ValidateBasic())

	atA := e.ctxAt(e.A)
	sessionCtx, err := atA.PrevCtx(e.S)
	require.NoError(t, err)

	// (1) the claim is ACCEPTED at height A = S + W*B ...
	require.False(t, k.ClaimIsMature(atA, e.S), "ClaimIsMature is false at S+W*B (strict >)")
	require.Nil(t, k.ValidateClaim(atA, claim), "BAD: ValidateClaim accepts the claim at height S + W*B")
	// ... and only rejected one block later, so the rejection really is the maturity rule and nothing else
	errLate := k.ValidateClaim(e.ctxAt(e.A+1), claim)
	require.NotNil(t, errLate)
	require.Equal(t, sdk.CodeType(types.CodeExpiredProofsSubmissionError), errLate.Code())

	// (2) at the same height A the chain can already compute the required leaf index (no error) ...
	onChain, er := k.getPseudorandomIndex(atA, claim.TotalProofs, e.header, sessionCtx)
	require.NoError(t, er, "BAD: index is computable at a height where claims are still accepted")
	// ... and it is a pure function of hash(block P-1): anybody who has seen block P-1 = A-1 committed can compute it
	// before broadcasting a claim destined for block A.
	require.Equal(t, onChain, f13OffChainIndex(e.hashPm1, e.header, claim.TotalProofs))
	for _, total := range []int64{5, 8, 9, 100, 1000, 12345} { // the servicer can also grind TotalProofs
		got, er := k.getPseudorandomIndex(atA, total, e.header, sessionCtx)
		require.NoError(t, er)
		require.Equal(t, f13OffChainIndex(e.hashPm1, e.header, total), got)
	}
	// control: one block earlier (height A-1, block P does not exist yet) the chain itself can NOT produce the index,
	// i.e. A = P is the first height at which it is computable - and it is still inside the claim window.
	_, er = k.getPseudorandomIndex(e.ctxAt(e.A-1), claim.TotalProofs, e.header, sessionCtx)
	require.Error(t, er)
	t.Logf("S=%d W=%d B=%d: claim accepted at height %d; required leaf index for TotalProofs=%d already = %d", e.S, e.W, e.B, e.A, claim.TotalProofs, onChain)
}

// (3) claim -> proof -> claim again -> proof again, all at height A, with 1 genuine relay out of 1000 claimed
func TestF13_ForgedClaimProvenInSameBlockAndSessionClaimedTwice(t *testing.T) {
	e := f13Setup(t)
	k := e.k
	const claimed = int64(1000)

	// the ONLY relay the servicer ever served in this session
	genuine := createProof(getTestApplicationPrivateKey(), getRandomPrivateKey(), e.servicer.PublicKey, e.header.Chain, 0).(types.RelayProof)
	require.Nil(t, genuine.ValidateBasic())

	atA := e.ctxAt(e.A)
	// relay rewards are minted to the servicer's operator address and/or its output address (non-custodial);
	// both belong to the servicer, so look at the sum
	balance := func() sdk.BigInt {
		sum := sdk.ZeroInt()
		for _, a := range []sdk.Address{e.servicer.Address, e.servicer.OutputAddress} {
			if acc := k.authKeeper.GetAccount(atA, a); a != nil && acc != nil {
				sum = sum.Add(acc.GetCoins().AmountOf(k.posKeeper.StakeDenom(atA)))
			}
		}
		return sum
	}
	start := balance()

	var paid []sdk.BigInt
	for round := int64(0); round < 2; round++ {
		// Block A-1 has been committed => hash(block P-1) is public => the servicer knows which leaf will be asked for.
		idx := f13OffChainIndex(e.hashPm1, e.header, claimed)
		// It builds a tree with 999 garbage leaves and its single genuine relay at position idx ...
		leaves := f13ForgeTree(t, genuine, claimed, idx, round)
		root, sorted := types.GenerateRoot(e.S, append([]types.Proof(nil), leaves...))
		require.Equal(t, types.Proof(genuine), sorted[idx])

		// ... and submits the claim for 1000 relays into block A (handler.handleClaimMsg)
		claim := types.MsgClaim{
			SessionHeader: e.header,
			MerkleRoot:    root,
			TotalProofs:   claimed,
			FromAddress:   e.servicer.Address,
			EvidenceType:  types.RelayEvidence,
		}
		require.Nil(t, claim.ValidateBasic())
		require.Nil(t, k.ValidateClaim(atA, claim), "BAD round %d: claim accepted at height S+W*B", round)
		require.NoError(t, k.SetClaim(atA, claim))

		// the proof tx follows in the SAME block A (handler.handleProofMsg)
		mp, leaf := types.GenerateProofs(e.S, append([]types.Proof(nil), leaves...), int(idx))
		proof := types.MsgProof{MerkleProof: mp, Leaf: leaf, EvidenceType: types.RelayEvidence}
		require.Nil(t, proof.ValidateBasic())
		addr, stored, verr := k.ValidateProof(atA, proof)
		require.Nil(t, verr, "BAD round %d: proof for a 999/1000 fabricated claim is valid, in the same block as the claim", round)
		require.Equal(t, e.servicer.Address, addr)
		tokens, xerr := k.ExecuteProof(atA, proof, stored)
		require.Nil(t, xerr)
		require.True(t, tokens.IsPositive())
		paid = append(paid, tokens)

		// the claim is gone, and the session is still "not mature" => next round claims the SAME session again
		_, found := k.GetClaim(atA, e.servicer.Address, e.header, types.RelayEvidence)
		require.False(t, found)
	}
	// paid twice for 1000 relays each, for one and the same session, having served a single relay
	expectedPerRound, _ := k.posKeeper.CalculateRelayReward(atA, e.header.Chain, sdk.NewInt(claimed), e.servicer.GetTokens())
	require.True(t, expectedPerRound.IsPositive())
	require.Equal(t, expectedPerRound.String(), paid[0].String())
	require.Equal(t, expectedPerRound.String(), paid[1].String())
	require.Equal(t, start.Add(expectedPerRound.MulRaw(2)).String(), balance().String(),
		"BAD: servicer balance grew by 2 x reward(1000 relays)")
	t.Logf("height %d: 1 genuine relay, claimed %d twice for the same session, minted %s + %s to the servicer", e.A, claimed, paid[0], paid[1])
}
