package keeper

// F05 witness (keeper level).
//
// baseapp.handleQueryCustom (ABCI Query "custom/<route>/...") builds the querier context as
//
//	sdk.NewContext(newMS /* LoadLazyVersion(req.Height) */, app.checkState.ctx.BlockHeader() /* LATEST header */, true, logger)
//
// and never calls SetPrevCtx(true).  types.Cache.{Get,Add,Remove}WithCtx only bypass the process-global
// caches for contexts that are marked IsPrevCtx().  Therefore the apps querier ("custom/application/application")
// run at an OLD height stores the HISTORICAL application record into Keeper.ApplicationCache, which the
// consensus path (DeliverTx -> ValidateApplicationStaking / GetApplication, EndBlock, ...) reads as current state.
//
// These tests PASS when the defect is present: they assert the bad behaviour.

import (
	"testing"

	"github.com/pokt-network/pocket-core/store"
	sdk "github.com/pokt-network/pocket-core/types"
	"github.com/pokt-network/pocket-core/types/module"
	"github.com/pokt-network/pocket-core/x/apps/types"
	"github.com/pokt-network/pocket-core/x/auth"
	govTypes "github.com/pokt-network/pocket-core/x/gov/types"
	"github.com/pokt-network/pocket-core/x/nodes"
	nodeskeeper "github.com/pokt-network/pocket-core/x/nodes/keeper"
	nodestypes "github.com/pokt-network/pocket-core/x/nodes/types"
	"github.com/stretchr/testify/require"
	abci "github.com/tendermint/tendermint/abci/types"
	"github.com/tendermint/tendermint/libs/log"
	tmtypes "github.com/tendermint/tendermint/types"
	dbm "github.com/tendermint/tm-db"
)

// f05CreateTestInput is createTestInput (common_test.go) verbatim, except that the IAVL stores are mounted with a
// nil db, so that every store gets its own "s/k:<name>/" prefix (like the real app does) and the multistore can
// actually be Commit()-ed more than once. (createTestInput mounts every store on the same "s/_/" prefix, which
// only works as long as nobody commits.)
func f05CreateTestInput(t *testing.T) (sdk.Context, []auth.Account, Keeper) {
	initPower := int64(100000000000)
	nAccs := int64(4)

	keyAcc := sdk.NewKVStoreKey(auth.StoreKey)
	keyParams := sdk.ParamsKey
	tkeyParams := sdk.ParamsTKey
	nodesKey := sdk.NewKVStoreKey(nodestypes.StoreKey)
	appsKey := sdk.NewKVStoreKey(types.StoreKey)

	db := dbm.NewMemDB()
	ms := store.NewCommitMultiStore(db, false, 5000000)
	ms.MountStoreWithDB(keyAcc, sdk.StoreTypeIAVL, nil)
	ms.MountStoreWithDB(keyParams, sdk.StoreTypeIAVL, nil)
	ms.MountStoreWithDB(nodesKey, sdk.StoreTypeIAVL, nil)
	ms.MountStoreWithDB(appsKey, sdk.StoreTypeIAVL, nil)
	ms.MountStoreWithDB(tkeyParams, sdk.StoreTypeTransient, nil)
	err := ms.LoadLatestVersion()
	require.Nil(t, err)

	ctx := sdk.NewContext(ms, abci.Header{ChainID: "test-chain"}, false, log.NewNopLogger()).WithAppVersion("0.0.0")
	ctx = ctx.WithConsensusParams(
		&abci.ConsensusParams{
			Validator: &abci.ValidatorParams{
				PubKeyTypes: []string{tmtypes.ABCIPubKeyTypeEd25519},
			},
		},
	)
	cdc := makeTestCodec()

	maccPerms := map[string][]string{
		auth.FeeCollectorName:     nil,
		types.StakedPoolName:      {auth.Burner, auth.Staking, auth.Minter},
		nodestypes.StakedPoolName: {auth.Burner, auth.Staking},
		govTypes.DAOAccountName:   {auth.Burner, auth.Staking},
	}
	valTokens := sdk.TokensFromConsensusPower(initPower)
	accSubspace := sdk.NewSubspace(auth.DefaultParamspace)
	nodesSubspace := sdk.NewSubspace(nodestypes.DefaultParamspace)
	appSubspace := sdk.NewSubspace(DefaultParamspace)
	ak := auth.NewKeeper(cdc, keyAcc, accSubspace, maccPerms)
	nk := nodeskeeper.NewKeeper(cdc, nodesKey, ak, nodesSubspace, "pos")
	moduleManager := module.NewManager(
		auth.NewAppModule(ak),
		nodes.NewAppModule(nk),
	)
	genesisState := ModuleBasics.DefaultGenesis()
	moduleManager.InitGenesis(ctx, genesisState)
	initialCoins := sdk.NewCoins(sdk.NewCoin(sdk.DefaultStakeDenom, valTokens))
	accs := createTestAccs(ctx, int(nAccs), initialCoins, &ak)
	keeper := NewKeeper(cdc, appsKey, nk, ak, MockPocketKeeper{}, appSubspace, "apps")
	keeper.SetParams(ctx, types.DefaultParams())
	return ctx, accs, keeper
}

// f05QueryCtx mimics EXACTLY what baseapp.handleQueryCustom builds: a context over the multistore lazily loaded
// at the (historical) query height, carrying the LATEST header, isCheckTx=true, and NOT marked as a prev ctx.
func f05QueryCtx(t *testing.T, latest sdk.Context, queryHeight int64) sdk.Context {
	cms, ok := latest.MultiStore().(sdk.CommitMultiStore)
	require.True(t, ok)
	lazy, err := cms.LoadLazyVersion(queryHeight)
	require.Nil(t, err)
	oldMS, ok := (*lazy).(sdk.MultiStore)
	require.True(t, ok)
	return sdk.NewContext(oldMS, latest.BlockHeader(), true, log.NewNopLogger()).WithAppVersion("0.0.0")
}

func f05QueryApplication(t *testing.T, qctx sdk.Ctx, k Keeper, addr sdk.Address) ([]byte, sdk.Error) {
	bz, err := types.ModuleCdc.MarshalJSON(types.QueryAppParams{Address: addr})
	require.Nil(t, err)
	// same call that handleQueryCustom makes for path "custom/application/application"
	return NewQuerier(k)(qctx, []string{types.QueryApplication}, abci.RequestQuery{Data: bz})
}

// Scenario A: the application is unstaked+deleted at height 2 (DeleteApplication removes it from the cache).
// A historical query at height 1 RESURRECTS it in ApplicationCache; afterwards the consensus path sees an
// application that does not exist in the committed state, and a (valid) stake message is rejected.
func TestF05_HistoricalCustomQueryResurrectsDeletedAppInConsensusCache(t *testing.T) {
	ctx, accs, k := f05CreateTestInput(t)
	cms := ctx.MultiStore().(sdk.CommitMultiStore)

	app := getStakedApplication()
	app.Address = accs[0].GetAddress() // an address that owns coins, so that a later re-stake is valid
	app.PublicKey = accs[0].GetPubKey()

	// height 1: application exists
	ctx1 := ctx.WithBlockHeight(1)
	k.SetApplication(ctx1, app)
	require.Equal(t, int64(1), cms.Commit().Version)

	// height 2: application is removed from state (what FinishUnstakingApplication does at EndBlock)
	ctx2 := ctx.WithBlockHeight(2)
	k.deleteApplicationFromStakingSet(ctx2, app)
	k.DeleteApplication(ctx2, app.Address)
	require.Equal(t, int64(2), cms.Commit().Version)

	// sanity: consensus view at the latest height: gone, and a fresh stake would be valid
	_, found := k.GetApplication(ctx2, app.Address)
	require.False(t, found)
	require.Nil(t, k.ValidateApplicationStaking(ctx2, app, app.StakedTokens))

	// control: a properly marked historical ctx (what Context.PrevCtx produces) does not touch the cache
	_, qerr := f05QueryApplication(t, f05QueryCtx(t, ctx2, 1).SetPrevCtx(true), k, app.Address)
	require.Nil(t, qerr)
	_, found = k.GetApplication(ctx2, app.Address)
	require.False(t, found, "control: prev-marked ctx must not poison the cache")

	// the ABCI query: custom/application/application at Height=1 while the chain is at height 2
	res, qerr := f05QueryApplication(t, f05QueryCtx(t, ctx2, 1), k, app.Address)
	require.Nil(t, qerr)
	require.Contains(t, string(res), app.Address.String())

	// BAD BEHAVIOUR: consensus contexts (deliver-style ctx over the real, latest store) now find the deleted app ...
	ctx3 := ctx.WithBlockHeight(3)
	got, found := k.GetApplication(ctx3, app.Address)
	require.True(t, found, "F05: deleted application was resurrected in the consensus-visible ApplicationCache")
	require.Equal(t, app.StakedTokens, got.StakedTokens)
	// ... although it is not in the committed state
	raw, _ := ctx3.KVStore(k.storeKey).Get(types.KeyForAppByAllApps(app.Address))
	require.Nil(t, raw)
	// ... and consensus validation that depends on it changes on THIS node only.
	// (clean node: nil, see sanity above. Poisoned node: treated as edit-stake / bad status of a phantom app.)
	lower := app.StakedTokens.Sub(sdk.OneInt())
	errPoisoned := k.ValidateApplicationStaking(ctx3, app, lower)
	k.ApplicationCache.Purge() // = a node that never served the query
	errClean := k.ValidateApplicationStaking(ctx3, app, lower)
	require.Nil(t, errClean)
	require.NotNil(t, errPoisoned, "F05: same msg, same state, different validity depending on a served query")
	t.Logf("stake msg on clean node: %v ; on node that served the historical query: %v", errClean, errPoisoned)
}

// Scenario B: the application is edited (stake + chains) at height 2. The node's cache does not hold the entry
// (fresh process after restart, or LRU eviction). A historical query at height 1 inserts the height-1 record,
// and the consensus path then reads the stale stake/chains.
func TestF05_HistoricalCustomQueryServesStaleAppToConsensus(t *testing.T) {
	ctx, _, k := f05CreateTestInput(t)
	cms := ctx.MultiStore().(sdk.CommitMultiStore)

	v1 := getStakedApplication()
	ctx1 := ctx.WithBlockHeight(1)
	k.SetApplication(ctx1, v1)
	require.Equal(t, int64(1), cms.Commit().Version)

	v2 := v1
	v2.StakedTokens = v1.StakedTokens.Add(sdk.NewInt(5000000))
	v2.Chains = []string{"0001", "0021"}
	ctx2 := ctx.WithBlockHeight(2)
	k.SetApplication(ctx2, v2)
	require.Equal(t, int64(2), cms.Commit().Version)

	// node restart (NewKeeper builds an empty cache) or LRU eviction
	k.ApplicationCache.Purge()

	// custom/application/application with Height=1, latest header = 2
	_, qerr := f05QueryApplication(t, f05QueryCtx(t, ctx2, 1), k, v1.Address)
	require.Nil(t, qerr)

	// BAD BEHAVIOUR: consensus read at height 3 returns the height-1 record
	ctx3 := ctx.WithBlockHeight(3)
	got, found := k.GetApplication(ctx3, v1.Address)
	require.True(t, found)
	require.Equal(t, v1.StakedTokens, got.StakedTokens, "F05: stale stake served to consensus path")
	require.Equal(t, []string{"0001"}, got.Chains, "F05: stale chains served to consensus path")

	// the committed state says otherwise
	k.ApplicationCache.Purge()
	truth, found := k.GetApplication(ctx3, v1.Address)
	require.True(t, found)
	require.Equal(t, v2.StakedTokens, truth.StakedTokens)
	require.Equal(t, v2.Chains, truth.Chains)
}
