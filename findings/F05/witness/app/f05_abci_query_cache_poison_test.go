// nolint
package app

// F05 witness (full stack: real Tendermint node + real RPC `abci_query` + real blocks).
//
// baseapp.handleQueryCustom builds the querier ctx as
//     sdk.NewContext(<multistore lazily loaded at req.Height>, app.checkState.ctx.BlockHeader() /* latest */, true, logger)
// WITHOUT SetPrevCtx(true). types.Cache.{Get,Add,Remove}WithCtx therefore do NOT bypass the process-global caches,
// and `custom/application/application` at an OLD height writes the HISTORICAL application record into
// appsKeeper.ApplicationCache, which DeliverTx/EndBlock read as if it were current state.
//
// Sequence (single validator chain, apps unstaking_time = 1ns so that unstaked apps get deleted quickly):
//   hS : MsgStake        app A, 1_000_000 upokt                      -> A staked
//   hU : MsgBeginUnstake app A                                        -> A unstaking
//   hU+1 (EndBlock): A matures: coins returned, A deleted from state and from ApplicationCache
//   --- one unauthenticated Tendermint RPC call: abci_query path=custom/application/application height=hS ---
//   hR : MsgStake        app A, 1_000_000 upokt
//
// On a node that never served the query ("clean"), the last MsgStake is a fresh stake: 1_000_000 upokt move from the
// account to the app staked pool. On the node that served the query ("poisoned"), DeliverTx finds the phantom
// height-hS record in the cache, takes the EDIT-stake path with diff == 0, and writes A back as Staked(1_000_000)
// WITHOUT moving any coins. Same block, same pre-state, different post-state => different AppHash.
//
// The test PASSES when the defect is present.

import (
	"encoding/json"
	"strings"
	"testing"
	"time"

	"github.com/pokt-network/pocket-core/codec"
	sdk "github.com/pokt-network/pocket-core/types"
	apps "github.com/pokt-network/pocket-core/x/apps"
	appsTypes "github.com/pokt-network/pocket-core/x/apps/types"
	"github.com/pokt-network/pocket-core/x/nodes"
	nodesTypes "github.com/pokt-network/pocket-core/x/nodes/types"
	pocketTypes "github.com/pokt-network/pocket-core/x/pocketcore/types"
	"github.com/stretchr/testify/require"
	"github.com/tendermint/tendermint/rpc/client"
	tmTypes "github.com/tendermint/tendermint/types"
)

// oneAppTwoNodeGenesis with the apps module unstaking time shortened to 1ns
func f05Genesis() []byte {
	_ = oneAppTwoNodeGenesis() // fills the global GenState
	var gs appsTypes.GenesisState
	memCodec().MustUnmarshalJSON(GenState[appsTypes.ModuleName], &gs)
	gs.Params.UnstakingTime = time.Nanosecond
	GenState[appsTypes.ModuleName] = memCodec().MustMarshalJSON(gs)
	j, _ := memCodec().MarshalJSONIndent(GenState, "", "    ")
	return j
}

type f05Outcome struct {
	debited     sdk.BigInt // account balance before re-stake minus balance after re-stake
	pool        sdk.BigInt // app staked pool (module account) after re-stake
	sumStaked   sdk.BigInt // sum of StakedTokens over all staked applications after re-stake
	cachedAfter bool       // was A in the consensus-visible ApplicationCache right before the re-stake tx
}

func f05Run(t *testing.T, serveHistoricalAbciQuery bool) f05Outcome {
	const stake = int64(1000000)
	codec.UpgradeHeight = 2
	_ = memCodecMod(true)
	_, kb, cleanup := NewInMemoryTendermintNodeProto(t, f05Genesis())
	time.Sleep(1 * time.Second)
	kp, err := kb.GetCoinbase()
	require.Nil(t, err)
	addr := kp.GetAddress()

	_, _, blkChan := subscribeTo(t, tmTypes.EventNewBlock)
	<-blkChan // wait for a block

	var stopCli func()
	waitTx := func(send func(cli client.Client) (*sdk.TxResponse, error)) int64 {
		memCli, stop, evtChan := subscribeTo(t, tmTypes.EventTx)
		stopCli = stop
		res, err := send(memCli)
		require.Nil(t, err)
		require.NotNil(t, res)
		select {
		case e := <-evtChan:
			d := e.Data.(tmTypes.EventDataTx)
			require.Equal(t, uint32(0), d.Result.Code, "tx must be delivered OK: %s", d.Result.Log)
			return d.Height
		case <-time.After(30 * time.Second):
			t.Fatal("timeout waiting for tx")
		}
		return 0
	}

	// hS: stake application A
	hS := waitTx(func(cli client.Client) (*sdk.TxResponse, error) {
		return apps.StakeTx(memCodec(), cli, kb, []string{"0001"}, sdk.NewInt(stake), kp, "test", true)
	})
	a, err := PCA.QueryApp(addr.String(), hS)
	require.Nil(t, err)
	require.Equal(t, sdk.Staked, a.Status)

	// hU: begin unstaking A
	hU := waitTx(func(cli client.Client) (*sdk.TxResponse, error) {
		return apps.UnstakeTx(memCodec(), cli, kb, addr, "test", true)
	})
	require.True(t, hU > hS)

	// wait until EndBlock matured + deleted A
	deleted := false
	var hDel int64
	for i := 0; i < 100; i++ {
		hDel = PCA.LastBlockHeight()
		if _, err := PCA.QueryApp(addr.String(), hDel); err != nil && hDel > hU {
			deleted = true
			break
		}
		time.Sleep(200 * time.Millisecond)
	}
	require.True(t, deleted, "application should have been unstaked and deleted")
	require.False(t, PCA.appsKeeper.ApplicationCache.Contains(addr.String()), "DeleteApplication removes the cache entry")

	// a historical query through the regular (PrevCtx-marked) path does not touch the cache
	_, err = PCA.QueryApp(addr.String(), hS)
	require.Nil(t, err)
	require.False(t, PCA.appsKeeper.ApplicationCache.Contains(addr.String()), "control: PrevCtx path bypasses the cache")

	if serveHistoricalAbciQuery {
		// THE TRIGGER: plain Tendermint RPC abci_query (port 26657 on a real node), custom querier, old height.
		data, err := appsTypes.ModuleCdc.MarshalJSON(appsTypes.QueryAppParams{Address: addr})
		require.Nil(t, err)
		res, err := getInMemoryTMClient().ABCIQueryWithOptions(
			"custom/"+appsTypes.QuerierRoute+"/"+appsTypes.QueryApplication, data, client.ABCIQueryOptions{Height: hS})
		require.Nil(t, err)
		require.Equal(t, uint32(0), res.Response.Code, res.Response.Log)
		require.True(t, strings.Contains(string(res.Response.Value), addr.String()))
	}
	out := f05Outcome{cachedAfter: PCA.appsKeeper.ApplicationCache.Contains(addr.String())}

	hB := PCA.LastBlockHeight()
	balBefore, err := PCA.QueryBalance(addr.String(), hB)
	require.Nil(t, err)

	// hR: stake A again with the same amount
	hR := waitTx(func(cli client.Client) (*sdk.TxResponse, error) {
		return apps.StakeTx(memCodec(), cli, kb, []string{"0001"}, sdk.NewInt(stake), kp, "test", true)
	})
	a, err = PCA.QueryApp(addr.String(), hR)
	require.Nil(t, err)
	require.Equal(t, sdk.Staked, a.Status)
	require.Equal(t, sdk.NewInt(stake), a.StakedTokens)

	balAfter, err := PCA.QueryBalance(addr.String(), hR)
	require.Nil(t, err)
	out.debited = balBefore.Sub(balAfter)
	out.pool, err = PCA.QueryTotalAppCoins(hR)
	require.Nil(t, err)
	page, err := PCA.QueryApps(hR, appsTypes.QueryApplicationsWithOpts{Page: 1, Limit: 100, StakingStatus: sdk.Staked})
	require.Nil(t, err)
	out.sumStaked = sdk.ZeroInt()
	for _, ap := range page.Result.(appsTypes.Applications) {
		out.sumStaked = out.sumStaked.Add(ap.StakedTokens)
	}
	t.Logf("served historical abci_query=%v hS=%d hU=%d hDel=%d hR=%d | A cached before re-stake=%v | account debited by re-stake block(s)=%s | app staked pool=%s | sum(app.StakedTokens)=%s",
		serveHistoricalAbciQuery, hS, hU, hDel, hR, out.cachedAfter, out.debited, out.pool, out.sumStaked)

	cleanup()
	stopCli()
	return out
}

func TestF05_AbciQueryCustomAtOldHeightChangesBlockResult(t *testing.T) {
	const stake = int64(1000000)

	clean := f05Run(t, false)
	// node that never served the query: regular behaviour, stake is paid for, pool is backed 1:1
	require.False(t, clean.cachedAfter)
	require.True(t, clean.debited.GTE(sdk.NewInt(stake)), "clean node: the stake is debited from the account")
	require.True(t, clean.pool.Equal(clean.sumStaked), "clean node: staked pool == sum of app stakes")

	poisoned := f05Run(t, true)
	// BAD BEHAVIOUR (F05): identical tx sequence, only difference is one read-only RPC query served in between
	require.True(t, poisoned.cachedAfter, "F05: historical record was written into the consensus-visible ApplicationCache")
	require.True(t, poisoned.debited.LT(sdk.NewInt(stake)), "F05: re-stake was executed as a zero-diff EDIT of a phantom app: no coins debited")
	require.True(t, poisoned.pool.LT(poisoned.sumStaked), "F05: app is staked with tokens that are not in the staked pool")
	require.True(t, poisoned.sumStaked.Equal(clean.sumStaked))
	require.True(t, poisoned.pool.Add(sdk.NewInt(stake)).Equal(clean.pool), "F05: committed state differs from the clean node by exactly the stake")
}

// ---------------------------------------------------------------------------------------------------------------------
// Second cache family: types.VbCCache (validators-by-chain, keyed "<ctx.BlockHeight()>-<chain>") and
// pocketcore GlobalSessionCache, both reached by `custom/pocketcore/dispatch`.
//
// HandleDispatch(ctx) does sessionCtx := ctx.PrevCtx(latestSessionBlockHeight(ctx.BlockHeight())). With the
// handleQueryCustom ctx, ctx.BlockHeight() is the LATEST height N. Whenever N is itself a session start
// (N % BlocksPerSession == 1, i.e. 1 out of 4 blocks on mainnet), PrevCtx(N) short-circuits to the very same ctx: the
// OLD (req.Height) store under the header of height N. NewSession then
//   - stores GetValidatorsByChain(<old store>) under VbCCache["N-<chain>"]                 (read by every session generation)
//   - stores the resulting session under GlobalSessionCache[hash(app,chain,N)]            (read by ValidateClaim in DeliverTx)
//
// Sequence: blocksPerSession=2, sessionNodeCount=1. The only servicer V serves chain 0001 at genesis and edit-stakes to
// chain 2121 at hE. From hE on nobody serves 0001, so no session (app,0001,N>=hE) has any node and every claim for such
// a session must be rejected. One abci_query custom/pocketcore/dispatch at Height=1 while the chain is at an odd N > hE
// makes the node accept V's claim for session (app,0001,N).
func f05GenesisDispatch() []byte {
	_ = oneAppTwoNodeGenesis() // fills the global GenState
	var ns nodesTypes.GenesisState
	memCodec().MustUnmarshalJSON(GenState[nodesTypes.ModuleName], &ns)
	ns.Params.SessionBlockFrequency = 2
	GenState[nodesTypes.ModuleName] = memCodec().MustMarshalJSON(ns)
	var ps pocketTypes.GenesisState
	memCodec().MustUnmarshalJSON(GenState[pocketTypes.ModuleName], &ps)
	ps.Params.SessionNodeCount = 1
	GenState[pocketTypes.ModuleName] = memCodec().MustMarshalJSON(ps)
	j, _ := memCodec().MarshalJSONIndent(GenState, "", "    ")
	return j
}

func TestF05_AbciQueryDispatchAtOldHeightPoisonsVbCAndSessionCache(t *testing.T) {
	codec.TestMode = -2
	codec.UpgradeHeight = 2
	_ = memCodecMod(true)
	sdk.VbCCache = sdk.NewCache(1200) // the production default (types/utils.go init), other tests shrink it
	_, kb, cleanup := NewInMemoryTendermintNodeProto(t, f05GenesisDispatch())
	time.Sleep(1 * time.Second)
	kp, err := kb.GetCoinbase() // the validator / servicer V
	require.Nil(t, err)
	appKP := getUnstakedAccount(kb) // the genesis application (second key of the keybase)
	require.NotNil(t, appKP)

	_, _, blkChan := subscribeTo(t, tmTypes.EventNewBlock)
	<-blkChan

	// hE: V edit-stakes: chains [0001] -> [2121]
	memCli, stopCli, evtChan := subscribeTo(t, tmTypes.EventTx)
	n, err := PCA.QueryNode(kp.GetAddress().String(), PCA.LastBlockHeight())
	require.Nil(t, err)
	require.Equal(t, []string{"0001"}, n.Chains)
	tx, err := nodes.StakeTx(memCodec(), memCli, kb, []string{"2121"}, "https://newServiceUrl.com:8081", n.StakedTokens, kp, kp.GetAddress(), "test", true, false, kp.GetAddress())
	require.Nil(t, err)
	require.NotNil(t, tx)
	var hE int64
	select {
	case e := <-evtChan:
		d := e.Data.(tmTypes.EventDataTx)
		require.Equal(t, uint32(0), d.Result.Code, d.Result.Log)
		hE = d.Height
	case <-time.After(30 * time.Second):
		t.Fatal("timeout waiting for tx")
	}
	n, err = PCA.QueryNode(kp.GetAddress().String(), hE)
	require.Nil(t, err)
	require.Equal(t, []string{"2121"}, n.Chains)

	// THE TRIGGER: abci_query custom/pocketcore/dispatch, Height=1, issued while the latest height N is a session start
	data, err := pocketTypes.ModuleCdc.MarshalJSON(pocketTypes.QueryDispatchParams{SessionHeader: pocketTypes.SessionHeader{
		ApplicationPubKey: appKP.PublicKey.RawString(), Chain: "0001", SessionBlockHeight: 1}})
	require.Nil(t, err)
	trigger := func(after int64) (N int64, value string) {
		for i := 0; i < 400; i++ {
			if h := PCA.LastBlockHeight(); h > after && h%2 == 1 {
				res, err := getInMemoryTMClient().ABCIQueryWithOptions("custom/"+pocketTypes.ModuleName+"/"+pocketTypes.QueryDispatch, data, client.ABCIQueryOptions{Height: 1})
				require.Nil(t, err)
				require.Equal(t, uint32(0), res.Response.Code, res.Response.Log)
				var dr struct {
					BlockHeight int64 `json:"block_height,string"`
				}
				require.Nil(t, json.Unmarshal(res.Response.Value, &dr))
				if dr.BlockHeight%2 == 1 && dr.BlockHeight > after { // header used by handleQueryCustom == checkState header
					return dr.BlockHeight, string(res.Response.Value)
				}
			}
			time.Sleep(25 * time.Millisecond)
		}
		t.Fatal("could not hit a session-start height")
		return
	}
	deliverLikeCtx := func() sdk.Ctx {
		c, err := PCA.NewContext(PCA.LastBlockHeight()) // committed state + header of the latest height (ValidateClaim only uses BlockHeight/PrevCtx of it)
		require.Nil(t, err)
		return c
	}

	// NOTE on the retry loop: x/pocketcore/module.go EndBlock spawns, once per session, a goroutine that sleeps a RANDOM
	// 2-5s and then clears GlobalSessionCache. With 2 blocks (1s) per session in this test one of those fires about
	// every second, so a poisoned entry often does not survive until its session is over. That wipes the poisoned
	// session, not the defect; we simply pull the trigger again at the next session start. (On mainnet a session is
	// ~1h and the wipe happens once per session, so the poisoned entry typically lives for a long time.)
	var lastN = hE
	var success bool
	for attempt := 1; attempt <= 40 && !success; attempt++ {
		N, value := trigger(lastN)
		lastN = N
		require.Contains(t, value, kp.GetAddress().String(), "query answer: session at N served by V (historical data under latest header)")
		hdr := pocketTypes.SessionHeader{ApplicationPubKey: appKP.PublicKey.RawString(), Chain: "0001", SessionBlockHeight: N}

		// committed truth at height N: nobody serves chain 0001
		page, err := PCA.QueryNodes(N, nodesTypes.QueryValidatorsParams{Blockchain: "0001", Page: 1, Limit: 100})
		require.Nil(t, err)
		require.Nil(t, page.Result, "empty page: no validator serves 0001 in the committed state at N")

		// BAD BEHAVIOUR 1: VbCCache["N-0001"] holds the height-1 validator set
		cached, ok := sdk.VbCCache.Peek(sdk.GetCacheKey(int(N), "0001"))
		require.True(t, ok, "F05: VbCCache poisoned under the LATEST height key")
		require.Equal(t, []sdk.Address{kp.GetAddress()}, cached.([]sdk.Address))
		// BAD BEHAVIOUR 2: GlobalSessionCache holds a session for (app,0001,N) containing V
		sess, found := pocketTypes.GetSession(hdr, pocketTypes.GlobalSessionCache)
		if !found {
			t.Logf("attempt %d: N=%d poisoned session already wiped by the async session-cache clearer, retrying", attempt, N)
			continue
		}
		require.Equal(t, pocketTypes.SessionNodes{kp.GetAddress()}, sess.SessionNodes)

		// BAD BEHAVIOUR 3: the consensus path. ValidateClaim is what DeliverTx(MsgClaim) runs (x/pocketcore/handler.go).
		// wait until the session (N, N+1) is over
		for i := 0; i < 400 && PCA.LastBlockHeight() < N+2; i++ {
			time.Sleep(25 * time.Millisecond)
		}
		claim := pocketTypes.MsgClaim{
			SessionHeader: hdr,
			MerkleRoot:    pocketTypes.HashRange{Hash: make([]byte, 32), Range: pocketTypes.Range{Lower: 0, Upper: 1}},
			TotalProofs:   1000,
			FromAddress:   kp.GetAddress(),
			EvidenceType:  pocketTypes.RelayEvidence,
		}
		errPoisoned := PCA.pocketKeeper.ValidateClaim(deliverLikeCtx(), claim)
		if _, still := pocketTypes.GetSession(hdr, pocketTypes.GlobalSessionCache); errPoisoned != nil && !still {
			t.Logf("attempt %d: N=%d poisoned session wiped by the async session-cache clearer before session end, retrying", attempt, N)
			continue
		}
		// a node that never served the query:
		sdk.VbCCache.Purge()
		pocketTypes.ClearSessionCache(pocketTypes.GlobalSessionCache)
		errClean := PCA.pocketKeeper.ValidateClaim(deliverLikeCtx(), claim)
		t.Logf("attempt %d: hE=%d N=%d | ValidateClaim(V, session(app,0001,%d)) on node that served the query: %v | on clean node: %v", attempt, hE, N, N, errPoisoned, errClean)
		require.NotNil(t, errClean, "clean node: V is not in any 0001 session at N, claim is invalid")
		require.Nil(t, errPoisoned, "F05: the node that served the historical dispatch query ACCEPTS the claim")
		success = true
	}
	require.True(t, success)

	cleanup()
	stopCli()
	codec.TestMode = 0
}
